package main

import (
	"encoding/binary"
	"errors"
	"fmt"
	"io"
	"math"
	"os"
	"sort"
	"sync"

	"github.com/hashicorp/raft-wal/types"
)

// crashFS is an in-memory types.VFS + types.MetaStore that records every
// mutating call as an action, keeps durable/pending bookkeeping per file (the
// Go twin of coq/Wal/Model.v's abstract disk), injects faults at the k-th
// action and can rebuild the disk as of any action boundary to derive crash
// images.

type actKind byte

const (
	actCreate actKind = 'C'
	actWrite  actKind = 'W'
	actSync   actKind = 'S'
	actDelete actKind = 'D'
	actCommit actKind = 'M'
	actStable actKind = 'K'
	actInit   actKind = 'I'
	actList   actKind = 'L' // directory listing; only recorded when it fails
)

type action struct {
	kind   actKind
	name   string
	off    int64
	data   []byte // write payload
	size   uint64 // create
	ps     *types.PersistentState
	k, v   []byte
	isNil  bool
	failed bool
	// partial: a FAILED write that was short -- the first `partial` bytes of data reached
	// the file before WriteAt returned (partial, io.EOF); 0 = nothing was written
	partial int
	scrub   bool // all-zero write / sync following only such writes: not counted
	// a failed creation that left the empty, unallocated file behind
	leftover bool
	// commit: this state, compared with the state persisted before it and with the
	// segment files as they were when CommitState was called, records a rotation
	// (isRotation below)
	rot bool
}

type pwrite struct {
	off  int64
	data []byte
}

type cfile struct {
	data           []byte
	synced         []byte
	pending        []pwrite
	dirDurable     bool
	durableByScrub bool // dir entry durable only thanks to a scrub sync
	onlyScrub      bool // pending holds only all-zero (scrub) writes
	adopted        bool // holds a batch that was never fsynced but adopted at an Open
}

type crashFS struct {
	mu          sync.Mutex
	files       map[string]*cfile
	meta        *types.PersistentState
	stable      map[string][]byte
	inited      bool
	acts        []*action // counted and uncounted (scrub) actions, in order
	faultIn     int       // counted actions until one fails; -1 = none
	opens       int
	closes      int
	created     map[string]bool // every name ever created in this directory's lifetime
	idsUsed     map[uint64]string
	dupID       string
	faultsFired map[string]int
	writeFaults int            // write faults injected so far
	maxCreate   uint64         // Create of a larger file fails with ENOSPC (0 = no limit)
	events      map[string]int // coverage counters
	// fault modes; in force only while a counted fault is armed (faultIn >= 0):
	failDeletes  bool // every file deletion fails, the file stays
	failList     bool // the next directory listing fails (one-shot)
	createLeaves bool // a creation hit by the counted fault leaves the empty file behind
	commitLands  bool // a CommitState / SetStable hit by the counted fault takes effect and returns the error
	// readFaultIn: ReadAt calls until one fails with EIO (transient, one-shot); 0 = off.
	// Uncounted by the action log (reads are not actions of the model).
	readFaultIn    int
	readFaultFired int
	// base: the disk right after the last crash; acts are the actions since then,
	// numbered from baseCount
	base      *crashFS
	baseCount int
}

func newCrashFS() *crashFS {
	return &crashFS{files: map[string]*cfile{}, stable: map[string][]byte{}, faultIn: -1,
		created: map[string]bool{}, idsUsed: map[uint64]string{}}
}

// injected faults claim to be temporary (like EINTR / EAGAIN / ETIMEDOUT): code that retries the
// failed call instead of failing the operation -- fatal for fsync, whose failure may already
// have dropped the dirty pages -- then returns nil where the model returns an error
type injErr struct{ msg string }

func (e *injErr) Error() string   { return e.msg }
func (e *injErr) Temporary() bool { return true }
func (e *injErr) Timeout() bool   { return true }

var errInjected error = &injErr{"injected I/O fault"}
var errReadInjected = errors.New("injected read error (EIO)")

// record appends the action; returns false when the action must fail.
func (c *crashFS) record(a *action) bool {
	if a.kind == actDelete {
		// deletions are exempt from fault injection (issued in Go map order)
		c.acts = append(c.acts, a)
		return true
	}
	if !a.scrub && c.faultIn == 0 {
		c.faultIn = -1
		a.failed = true
		if c.faultsFired == nil {
			c.faultsFired = map[string]int{}
		}
		c.faultsFired[string(a.kind)]++
	} else if !a.scrub && c.faultIn > 0 {
		c.faultIn--
	}
	c.acts = append(c.acts, a)
	return !a.failed
}

func (c *crashFS) counted() []*action {
	c.mu.Lock()
	defer c.mu.Unlock()
	var r []*action
	for _, a := range c.acts {
		if !a.scrub {
			r = append(r, a)
		}
	}
	return r
}

func isAllZero(b []byte) bool {
	for _, x := range b {
		if x != 0 {
			return false
		}
	}
	return true
}

// ---- types.VFS -----------------------------------------------------------

func (c *crashFS) ListDir(dir string) ([]string, error) {
	c.mu.Lock()
	if c.faultIn >= 0 && c.failList {
		c.failList = false
		c.acts = append(c.acts, &action{kind: actList, failed: true})
		c.noteFired("L")
		c.mu.Unlock()
		return nil, errInjected
	}
	c.mu.Unlock()
	return c.listNames(), nil
}

// listNames: the directory as the harness sees it (never fails)
func (c *crashFS) listNames() []string {
	c.mu.Lock()
	defer c.mu.Unlock()
	var names []string
	for n := range c.files {
		names = append(names, n)
	}
	sort.Strings(names)
	return names
}

func (c *crashFS) noteFired(kind string) {
	if c.faultsFired == nil {
		c.faultsFired = map[string]int{}
	}
	c.faultsFired[kind]++
}

func (c *crashFS) Create(dir, name string, size uint64) (types.WritableFile, error) {
	c.mu.Lock()
	defer c.mu.Unlock()
	a := &action{kind: actCreate, name: name, size: size}
	if c.maxCreate > 0 && size > c.maxCreate && size <= math.MaxInt32 {
		// disk full (metafuzz: a damaged SizeLimit must not make THIS fake allocate gigabytes)
		a.failed = true
		c.acts = append(c.acts, a)
		return nil, errors.New("no space left on device")
	}
	if size > math.MaxInt32 {
		// fs.Create refuses such sizes ("maximum file size is ..."); do not allocate them here
		a.failed = true
		c.acts = append(c.acts, a)
		return nil, fmt.Errorf("maximum file size is %d bytes", math.MaxInt32)
	}
	if _, ok := c.files[name]; ok {
		a.failed = true
		c.acts = append(c.acts, a)
		return nil, fmt.Errorf("create %s: %w", name, os.ErrExist)
	}
	if !c.record(a) {
		if c.createLeaves {
			// the file was created, its preallocation failed: an empty file stays
			a.leftover = true
			c.noteCreated(name)
			c.files[name] = &cfile{}
			c.noteFired("C-left")
		}
		return nil, errInjected
	}
	c.noteCreated(name)
	c.files[name] = &cfile{data: make([]byte, size), synced: make([]byte, size)}
	c.opens++
	return &chandle{fs: c, name: name}, nil
}

func (c *crashFS) Delete(dir, name string) error {
	c.mu.Lock()
	defer c.mu.Unlock()
	a := &action{kind: actDelete, name: name}
	if _, ok := c.files[name]; !ok {
		a.failed = true
		c.acts = append(c.acts, a)
		return fmt.Errorf("delete %s: %w", name, os.ErrNotExist)
	}
	if c.faultIn >= 0 && c.failDeletes {
		a.failed = true
		c.acts = append(c.acts, a)
		c.noteFired("D")
		return errInjected
	}
	if !c.record(a) {
		return errInjected
	}
	delete(c.files, name)
	return nil
}

func (c *crashFS) open(name string) (*chandle, error) {
	c.mu.Lock()
	defer c.mu.Unlock()
	if _, ok := c.files[name]; !ok {
		return nil, fmt.Errorf("open %s: %w", name, os.ErrNotExist)
	}
	c.opens++
	return &chandle{fs: c, name: name}, nil
}

func (c *crashFS) OpenReader(dir, name string) (types.ReadableFile, error) {
	h, err := c.open(name)
	if err != nil {
		return nil, err
	}
	return h, nil
}

func (c *crashFS) OpenWriter(dir, name string) (types.WritableFile, error) {
	h, err := c.open(name)
	if err != nil {
		return nil, err
	}
	return h, nil
}

type chandle struct {
	fs     *crashFS
	name   string
	closed bool
}

func (h *chandle) file() *cfile { return h.fs.files[h.name] }

func (h *chandle) ReadAt(p []byte, off int64) (int, error) {
	h.fs.mu.Lock()
	defer h.fs.mu.Unlock()
	if h.closed {
		return 0, os.ErrClosed
	}
	f := h.file()
	if f == nil {
		return 0, os.ErrNotExist
	}
	if off < 0 {
		return 0, errors.New("readat: negative offset") // as *os.File
	}
	if h.fs.readFaultIn > 0 {
		h.fs.readFaultIn--
		if h.fs.readFaultIn == 0 {
			h.fs.readFaultFired++
			return 0, errReadInjected
		}
	}
	if off >= int64(len(f.data)) {
		return 0, io.EOF
	}
	n := copy(p, f.data[off:])
	if n < len(p) {
		return n, io.EOF
	}
	return n, nil
}

func (h *chandle) WriteAt(p []byte, off int64) (int, error) {
	h.fs.mu.Lock()
	defer h.fs.mu.Unlock()
	if h.closed {
		return 0, os.ErrClosed
	}
	f := h.file()
	if f == nil {
		return 0, os.ErrNotExist
	}
	a := &action{kind: actWrite, name: h.name, off: off, data: append([]byte(nil), p...), scrub: isAllZero(p)}
	if !h.fs.record(a) {
		// The counted write fault has two flavours, chosen deterministically: nothing is
		// written and a plain error comes back, or -- odd action number, and no unsynced
		// data in the file that the model could still adopt at a restart -- the first half
		// of the bytes is written and (n/2, io.EOF) comes back (a short write; any non-nil
		// error is admissible for an io.WriterAt).  For the model both are AFail (AWrite ..)
		// without effect on the abstract file: the half batch lies behind the valid chain,
		// readers never look at it, recovery discards and scrubs it (coq/Seg/FailFacts.v).
		// A short write OVER an unsynced batch could destroy a batch the model adopts at
		// the next restart (Model.io leaves a pending batch alone when a write fails), so
		// that combination is left to the byte-level streams (seg ... E p).
		h.fs.writeFaults++
		half := len(p) / 2
		if len(h.fs.acts)%2 == 1 && len(f.pending) == 0 && half > 0 {
			a.partial = half
			end := int(off) + half
			if end > len(f.data) {
				f.data = append(f.data, make([]byte, end-len(f.data))...)
			}
			copy(f.data[off:], p[:half])
			f.onlyScrub = false
			f.pending = append(f.pending, pwrite{off, a.data[:half]})
			if h.fs.events == nil {
				h.fs.events = map[string]int{}
			}
			h.fs.events["short_write_faults"]++
			return half, io.EOF
		}
		return 0, errInjected
	}
	end := int(off) + len(p)
	if end > len(f.data) {
		f.data = append(f.data, make([]byte, end-len(f.data))...)
	}
	copy(f.data[off:], p)
	if len(f.pending) == 0 {
		f.onlyScrub = a.scrub
	} else {
		f.onlyScrub = f.onlyScrub && a.scrub
	}
	f.pending = append(f.pending, pwrite{off, a.data})
	return len(p), nil
}

func (h *chandle) Sync() error {
	h.fs.mu.Lock()
	defer h.fs.mu.Unlock()
	if h.closed {
		return os.ErrClosed
	}
	f := h.file()
	if f == nil {
		return os.ErrNotExist
	}
	a := &action{kind: actSync, name: h.name, scrub: len(f.pending) > 0 && f.onlyScrub}
	if a.scrub && f.adopted {
		// recovery zeroed stale bytes behind an adopted batch: this fsync is the first
		// one that batch ever gets
		if h.fs.events == nil {
			h.fs.events = map[string]int{}
		}
		h.fs.events["scrub_fsync_over_adopted_batch"]++
		if h.fs.faultIn >= 0 {
			h.fs.events["scrub_fsync_over_adopted_batch_fault_armed"]++
		}
	}
	if !h.fs.record(a) {
		return errInjected
	}
	f.adopted = false
	f.synced = append([]byte(nil), f.data...)
	f.pending = nil
	if !f.dirDurable {
		f.dirDurable = true
		f.durableByScrub = a.scrub
	} else if !a.scrub {
		f.durableByScrub = false
	}
	return nil
}

func (h *chandle) Close() error {
	h.fs.mu.Lock()
	defer h.fs.mu.Unlock()
	if !h.closed {
		h.closed = true
		h.fs.closes++
	}
	return nil
}

// ---- types.MetaStore -------------------------------------------------------

type cmeta struct{ fs *crashFS }

func clonePS(ps types.PersistentState) types.PersistentState {
	r := types.PersistentState{NextSegmentID: ps.NextSegmentID}
	r.Segments = append([]types.SegmentInfo(nil), ps.Segments...)
	return r
}

func (m *cmeta) Load(dir string) (types.PersistentState, error) {
	c := m.fs
	c.mu.Lock()
	defer c.mu.Unlock()
	if !c.inited {
		if !c.record(&action{kind: actInit}) {
			return types.PersistentState{}, errInjected
		}
		c.inited = true
	}
	if c.meta == nil {
		return types.PersistentState{}, nil
	}
	return clonePS(*c.meta), nil
}

func (m *cmeta) CommitState(ps types.PersistentState) error {
	c := m.fs
	c.mu.Lock()
	defer c.mu.Unlock()
	cp := clonePS(ps)
	rot := c.isRotation(c.meta, &cp)
	if !c.record(&action{kind: actCommit, ps: &cp, rot: rot}) {
		if c.commitLands {
			// bbolt: the meta page of the transaction is written, its last fdatasync
			// fails; the error is returned, the new state is what the next Open reads
			c.acts = append(c.acts, &action{kind: actCommit, ps: &cp})
			c.meta = &cp
			c.noteFired("M-landed")
		}
		return errInjected
	}
	c.meta = &cp
	return nil
}

// ---- rotations of the persisted-metadata history (C20) ----------------------

// committedEntries counts the entry frames of a segment file image that a commit
// frame covers (file header, then frames up to the first zero frame type).
func committedEntries(data []byte) uint64 {
	var n, committed uint64
	pad8 := func(l int) int { return (l + 7) &^ 7 }
	for off := 32; off+8 <= len(data); {
		l := int(binary.LittleEndian.Uint32(data[off+4 : off+8]))
		switch data[off] {
		case 1: // entry
			n++
			off += 8 + pad8(l)
		case 2: // index
			off += 8 + pad8(l)
		case 3: // commit
			committed = n
			off += 8
		default:
			return committed
		}
	}
	return committed
}

// fileLast: the last index the file of segment si holds right now (0 = no entry);
// the Go twin of file_last in coq/Wal/MetricsSpec.v.  Caller holds c.mu.
func (c *crashFS) fileLast(si types.SegmentInfo) uint64 {
	f := c.files[fmt.Sprintf("%020d-%016x.wal", si.BaseIndex, si.ID)]
	if f == nil {
		return 0
	}
	n := committedEntries(f.data)
	if n == 0 {
		return 0
	}
	return si.BaseIndex + n - 1
}

func sameSegInfo(a, b types.SegmentInfo) bool {
	return a.ID == b.ID && a.BaseIndex == b.BaseIndex && a.MinIndex == b.MinIndex && a.MaxIndex == b.MaxIndex &&
		a.Codec == b.Codec && a.IndexStart == b.IndexStart && a.SizeLimit == b.SizeLimit &&
		a.CreateTime.Equal(b.CreateTime) && a.SealTime.Equal(b.SealTime)
}

// isRotation is is_rotation of coq/Wal/MetricsSpec.v: committing `nw` over `old`
// records a rotation iff every segment but the last stays as it was, the last one --
// the unsealed tail t -- becomes a sealed segment of the same identity whose MaxIndex
// is the last entry t's file holds (nothing is cut off), and ONE new, empty, unsealed
// tail with the next segment id and BaseIndex = that MaxIndex + 1 is appended.  Head
// truncations, the reset of an empty first segment and tail truncations that drop
// whole segments never make the list longer; a tail truncation inside the tail seals
// it below the last entry of its file.  Caller holds c.mu.
func (c *crashFS) isRotation(old, nw *types.PersistentState) bool {
	if old == nil || len(old.Segments) < 1 || len(nw.Segments) != len(old.Segments)+1 {
		return false
	}
	k := len(old.Segments) - 1
	for i := 0; i < k; i++ {
		if !sameSegInfo(old.Segments[i], nw.Segments[i]) {
			return false
		}
	}
	t, t2, n := old.Segments[k], nw.Segments[k], nw.Segments[k+1]
	return t2.MaxIndex == c.fileLast(t) &&
		t.SealTime.IsZero() && !t2.SealTime.IsZero() &&
		t2.ID == t.ID && t2.BaseIndex == t.BaseIndex && t2.MinIndex == t.MinIndex &&
		t2.Codec == t.Codec && t2.SizeLimit == t.SizeLimit &&
		t2.IndexStart > 0 && t2.MaxIndex > 0 &&
		n.SealTime.IsZero() && n.BaseIndex == t2.MaxIndex+1 && n.MinIndex == n.BaseIndex && n.MaxIndex == 0 &&
		n.ID == old.NextSegmentID && nw.NextSegmentID == old.NextSegmentID+1
}

// rotationsSince counts the successful commits recorded from action index `from` on
// that are rotations.
func (c *crashFS) rotationsSince(from int) uint64 {
	c.mu.Lock()
	defer c.mu.Unlock()
	var n uint64
	for i := from; i < len(c.acts); i++ {
		if a := c.acts[i]; a.kind == actCommit && !a.failed && a.rot {
			n++
		}
	}
	return n
}

func (c *crashFS) nActions() int {
	c.mu.Lock()
	defer c.mu.Unlock()
	return len(c.acts)
}

func (m *cmeta) GetStable(key []byte) ([]byte, error) {
	c := m.fs
	c.mu.Lock()
	defer c.mu.Unlock()
	v, ok := c.stable[string(key)]
	if !ok {
		return nil, nil
	}
	return append([]byte{}, v...), nil
}

func (m *cmeta) SetStable(key, value []byte) error {
	c := m.fs
	c.mu.Lock()
	defer c.mu.Unlock()
	// BoltDB limits: Put needs a non-empty key of at most 32768 bytes; Delete accepts anything
	if len(key) == 0 || len(key) > 32768 {
		if value == nil {
			return nil
		}
		return errors.New("key required / too large")
	}
	if !c.record(&action{kind: actStable, k: append([]byte(nil), key...), v: append([]byte(nil), value...), isNil: value == nil}) {
		if c.commitLands {
			c.acts = append(c.acts, &action{kind: actStable, k: append([]byte(nil), key...), v: append([]byte(nil), value...), isNil: value == nil})
			if value == nil {
				delete(c.stable, string(key))
			} else {
				c.stable[string(key)] = append([]byte(nil), value...)
			}
			c.noteFired("K-landed")
		}
		return errInjected
	}
	if value == nil {
		delete(c.stable, string(key))
	} else {
		c.stable[string(key)] = append([]byte(nil), value...)
	}
	return nil
}

func (m *cmeta) Close() error { return nil }

// adoptPending: a process restart or a Close/Open cycle without power loss. Writes
// whose fsync failed are still in the page cache and the next Open reads them; the
// model treats them as synced from here on (Model.adopt_disk: an I/O error followed
// by a restart and a later power loss is outside the model). The harness does the
// same, so that the fsync of recovery's zeroStaleTail -- issued only when stale
// bytes of an earlier, longer failed batch lie behind the recovered chain -- is an
// uncounted scrub fsync whether or not such an adopted batch is in the file.
func (c *crashFS) adoptPending() int {
	c.mu.Lock()
	defer c.mu.Unlock()
	n := 0
	for _, f := range c.files {
		if len(f.pending) > 0 && !f.onlyScrub {
			f.synced = append([]byte(nil), f.data...)
			f.pending = nil
			f.adopted = true
			n++
		}
	}
	return n
}

// ---- crash images ----------------------------------------------------------

// snapshot deep-copies the durable bookkeeping (the base of later replays)
func (c *crashFS) snapshot() *crashFS {
	r := newCrashFS()
	for n, f := range c.files {
		r.files[n] = &cfile{data: append([]byte(nil), f.data...), synced: append([]byte(nil), f.synced...),
			dirDurable: f.dirDurable, durableByScrub: f.durableByScrub}
	}
	if c.meta != nil {
		cp := clonePS(*c.meta)
		r.meta = &cp
	}
	for k, v := range c.stable {
		r.stable[k] = v
	}
	r.inited = c.inited
	for k, v := range c.created {
		r.created[k] = v
	}
	for k, v := range c.idsUsed {
		r.idsUsed[k] = v
	}
	return r
}

func (c *crashFS) nCounted() int { return c.baseCount + len(c.counted()) }

// imageAt rebuilds the disk as of the first k counted actions (global numbering:
// the base image of the previous crash counts for baseCount actions) and applies
// the adversary's choices: keepFile = non-durable files that survive, keepBatch =
// files whose pending writes all reached the disk; other pending writes are lost
// except for the chunks selected by tornMask (nil = none).
func (c *crashFS) imageAt(k int, keepFile, keepBatch map[string]bool, tornMask func(name string, nchunks int) []bool) *crashFS {
	r := newCrashFS()
	if c.base != nil {
		r = c.base.snapshot()
	}
	n := c.baseCount
	for _, a := range c.acts {
		if !a.scrub {
			if n >= k {
				break
			}
			n++
		}
		if a.failed {
			if a.leftover {
				r.files[a.name] = &cfile{}
				r.noteCreated(a.name)
			}
			if f := r.files[a.name]; a.kind == actWrite && a.partial > 0 && f != nil {
				end := int(a.off) + a.partial
				if end > len(f.data) {
					f.data = append(f.data, make([]byte, end-len(f.data))...)
				}
				copy(f.data[a.off:], a.data[:a.partial])
				f.onlyScrub = false
				f.pending = append(f.pending, pwrite{a.off, a.data[:a.partial]})
			}
			continue
		}
		switch a.kind {
		case actCreate:
			r.files[a.name] = &cfile{data: make([]byte, a.size), synced: make([]byte, a.size)}
			r.noteCreated(a.name)
		case actWrite:
			f := r.files[a.name]
			if f == nil {
				continue
			}
			end := int(a.off) + len(a.data)
			if end > len(f.data) {
				f.data = append(f.data, make([]byte, end-len(f.data))...)
			}
			copy(f.data[a.off:], a.data)
			if len(f.pending) == 0 {
				f.onlyScrub = a.scrub
			} else {
				f.onlyScrub = f.onlyScrub && a.scrub
			}
			f.pending = append(f.pending, pwrite{a.off, a.data})
		case actSync:
			f := r.files[a.name]
			if f == nil {
				continue
			}
			f.synced = append([]byte(nil), f.data...)
			f.pending = nil
			if !f.dirDurable {
				f.dirDurable = true
				f.durableByScrub = a.scrub
			} else if !a.scrub {
				f.durableByScrub = false
			}
		case actDelete:
			delete(r.files, a.name)
		case actCommit:
			cp := clonePS(*a.ps)
			r.meta = &cp
			r.inited = true
		case actStable:
			if a.isNil {
				delete(r.stable, string(a.k))
			} else {
				r.stable[string(a.k)] = a.v
			}
			r.inited = true
		case actInit:
			r.inited = true
		}
	}
	// adversary
	for name, f := range r.files {
		if !f.dirDurable && !keepFile[name] {
			delete(r.files, name)
			r.forgetCreated(name) // never reached the disk: the same segment may be re-created
			continue
		}
		img := append([]byte(nil), f.synced...)
		if len(f.pending) > 0 {
			full := append([]byte(nil), f.data...)
			if len(img) < len(full) {
				img = append(img, make([]byte, len(full)-len(img))...)
			}
			if keepBatch[name] {
				img = full
			} else if tornMask != nil {
				nch := (len(full) + 7) / 8
				mask := tornMask(name, nch)
				for ch := 0; ch < nch && mask != nil; ch++ {
					if mask[ch] {
						end := ch*8 + 8
						if end > len(full) {
							end = len(full)
						}
						copy(img[ch*8:end], full[ch*8:end])
					}
				}
			}
		}
		f.data = img
		f.synced = append([]byte(nil), img...)
		f.pending = nil
		f.dirDurable = true
		f.durableByScrub = false
	}
	r.dupID = ""
	r.base = r.snapshot()
	r.baseCount = k
	return r
}

func (c *crashFS) noteCreated(name string) {
	var b, id uint64
	if _, err := fmt.Sscanf(name, "%020d-%016x.wal", &b, &id); err == nil {
		if prev, ok := c.idsUsed[id]; ok && c.dupID == "" {
			c.dupID = fmt.Sprintf("segment id %x used for %s and again for %s", id, prev, name)
		}
		c.idsUsed[id] = name
	}
	if c.created[name] && c.dupID == "" {
		c.dupID = "file name " + name + " created twice"
	}
	c.created[name] = true
}

func (c *crashFS) forgetCreated(name string) {
	var b, id uint64
	if _, err := fmt.Sscanf(name, "%020d-%016x.wal", &b, &id); err == nil {
		delete(c.idsUsed, id)
	}
	delete(c.created, name)
}
